//! C13 correspondence harness: graceful shutdown of the real tonic server.
//!
//! A real `Server::builder().add_service(..).serve_with_incoming_shutdown(incoming, signal)` is fed
//! `tokio::io::duplex` connections through an mpsc-backed stream; real tonic clients
//! (`Endpoint::connect_with_connector_lazy`) talk to it over the other ends.  Everything runs on a
//! single-threaded tokio runtime with paused (virtual) time, so a run is a deterministic function
//! of the scenario.  Handlers are scripted: every phase of a call (response headers, each message,
//! the final status) waits for a gate that the scenario script opens.  The script places the
//! shutdown signal at every phase boundary.
//!
//! Recorded per case: the server-side event trace (accepts, signal observed, call starts and
//! completions, connection closes, serve return) and every client's outcome.  The model side
//! (`Model/Shutdown.v`, `obs_shutdown`) checks that the trace is a run of the transition system
//! (trace inclusion, hidden steps inserted by the checker) and recomputes the outcomes every
//! accepted call must have.  The direct oracle below judges the property on the log alone.
//!
//! Further dimensions: the builder options `accept_http1`, `concurrency_limit_per_connection`,
//! `timeout` and `max_connection_age` (struct `Opts`); a listener that stays permanently ready
//! (`Act::Flood`: the listener fires the signal itself while it keeps producing connections, so a
//! select loop that prefers the listener starves the signal visibly); and `tcp.*` kinds that run
//! `Router::serve_with_shutdown(addr, signal)` over 127.0.0.1 in real time (function `run_tcp`).
use bytes::{Buf, BufMut, Bytes};
use futures_util::stream::{self, Stream};
use http_body::{Body as HttpBody, Frame};
use hyper_util::rt::TokioIo;
use serde_json::{json, Value};
use std::collections::{BTreeMap, BTreeSet, HashMap};
use std::future::Future;
use std::io;
use std::pin::Pin;
use std::sync::{Arc, Mutex};
use std::task::{ready, Context, Poll};
use std::time::Duration;
use tokio::io::{AsyncRead, AsyncWrite, DuplexStream, ReadBuf};
use tokio::sync::{mpsc, oneshot, Semaphore};
use tonic::codec::{Codec, DecodeBuf, Decoder, EncodeBuf, Encoder};
use tonic::transport::server::Connected;
use tonic::transport::{Channel, Endpoint, Server};
use tonic::{Code, Request, Response, Status};
use vcommon::*;

const IMPORTS: &str = "From Verif Require Import Lib.Obs Model.Shutdown.";

// ------------------------------------------------------------------ scenario
#[derive(Clone, Debug, PartialEq)]
enum Kind {
    Unary,
    Stream,
    /// the client streams `reqs` (gated one by one), the handler answers once after the last
    ClientStream,
    /// both directions stream: response message i is produced after request message i was read
    Bidi,
}
impl Kind {
    fn name(&self) -> &'static str {
        match self {
            Kind::Unary => "unary",
            Kind::Stream => "stream",
            Kind::ClientStream => "client_stream",
            Kind::Bidi => "bidi",
        }
    }
    fn single_response(&self) -> bool {
        matches!(self, Kind::Unary | Kind::ClientStream)
    }
    fn streams_requests(&self) -> bool {
        matches!(self, Kind::ClientStream | Kind::Bidi)
    }
}
#[derive(Clone, Debug)]
struct CallSpec {
    k: u32,
    c: u32,
    kind: Kind,
    /// unary: exactly one message iff status is None; stream: any number
    msgs: Vec<Vec<u8>>,
    /// None = OK
    status: Option<(i32, String)>,
    /// request messages of a client-streaming / bidirectional call (the handler checks them)
    reqs: Vec<Vec<u8>>,
}
impl CallSpec {
    /// number of gated handler phases
    fn phases(&self) -> usize {
        match self.kind {
            Kind::Unary | Kind::ClientStream => 1,
            Kind::Stream | Kind::Bidi => self.msgs.len() + 2,
        }
    }
    /// number of gated client phases (each request message, then the end of the request stream)
    fn client_phases(&self) -> usize {
        if self.kind.streams_requests() {
            self.reqs.len() + 1
        } else {
            0
        }
    }
}
#[derive(Clone, Debug)]
struct ConnSpec {
    c: u32,
    /// capacity of the in-memory pipe (both directions)
    buf: usize,
    /// largest read/write the server / client transport performs at once (0 = unlimited)
    chunk_srv: usize,
    chunk_cli: usize,
    /// the client opens the connection as soon as it is offered (otherwise with its first call)
    eager: bool,
}
#[derive(Clone, Debug, PartialEq)]
enum Act {
    /// create the connection, hand the server end to the listener, create the (lazy) client
    Offer(u32),
    /// start the client side of call k
    Call(u32),
    /// let the handler of call k pass its next phase
    Gate(u32),
    /// let the client of call k send its next request message / end its request stream
    CGate(u32),
    /// fire the shutdown signal
    Signal,
    /// the listener ends (incoming stream yields None)
    EndIncoming,
    /// the listener reports an accept error (true = of a kind tonic retries silently)
    IncomingError(bool),
    /// the client of connection c goes away (channel dropped, its calls aborted)
    DropClient(u32),
    /// run until every task is idle (virtual time advances only then)
    Settle,
    /// the listener becomes permanently ready: it hands out `pre` (>= 1) fresh connections back to
    /// back (their peers have already gone away), fires the signal itself at the end of the poll
    /// that produced the last of them, and stays ready for up to `cap` further connections
    Flood(u32, u32),
    /// tcp kinds only: wait until the client of call k has its outcome
    Await(u32),
}
/// builder options of the server under test
#[derive(Clone, Debug, Default, PartialEq)]
struct Opts {
    accept_http1: bool,
    /// concurrency_limit_per_connection; below the number of concurrent calls of a connection the
    /// later ones wait in the per-connection stack's poll_ready, already received by hyper but not
    /// yet handed to the application (CallStart is logged when they are)
    limit: Option<usize>,
    /// Server::timeout, far above every virtual duration of a run
    timeout_ms: Option<u64>,
    /// run over 127.0.0.1 with Router::serve_with_shutdown, in real time
    tcp: bool,
}
#[derive(Clone, Debug)]
struct Scenario {
    conns: Vec<ConnSpec>,
    calls: Vec<CallSpec>,
    script: Vec<Act>,
    max_age_ms: Option<u64>,
    opts: Opts,
}

fn scn_json(s: &Scenario) -> Value {
    json!({
        "conns": s.conns.iter().map(|c| json!([c.c, c.buf, c.chunk_srv, c.chunk_cli, c.eager as u32])).collect::<Vec<_>>(),
        "calls": s.calls.iter().map(|c| json!({
            "k": c.k, "c": c.c, "kind": c.kind.name(),
            "reqs": c.reqs.iter().map(|m| hex(m)).collect::<Vec<_>>(),
            "msgs": c.msgs.iter().map(|m| hex(m)).collect::<Vec<_>>(),
            "status": c.status.as_ref().map(|(c, m)| json!([c, m])),
        })).collect::<Vec<_>>(),
        "script": s.script.iter().map(|a| match a {
            Act::Offer(c) => json!(["offer", c]),
            Act::Call(k) => json!(["call", k]),
            Act::Gate(k) => json!(["gate", k]),
            Act::CGate(k) => json!(["cgate", k]),
            Act::Signal => json!(["signal"]),
            Act::EndIncoming => json!(["end_incoming"]),
            Act::IncomingError(t) => json!(["incoming_error", *t as u32]),
            Act::DropClient(c) => json!(["drop_client", c]),
            Act::Settle => json!(["settle"]),
            Act::Flood(pre, cap) => json!(["flood", pre, cap]),
            Act::Await(k) => json!(["await", k]),
        }).collect::<Vec<_>>(),
        "max_age_ms": s.max_age_ms,
        "opts": {"accept_http1": s.opts.accept_http1, "limit": s.opts.limit, "timeout_ms": s.opts.timeout_ms, "tcp": s.opts.tcp},
    })
}
fn scn_from_json(v: &Value) -> Scenario {
    let u = |x: &Value| x.as_u64().unwrap();
    Scenario {
        conns: v["conns"].as_array().unwrap().iter().map(|c| ConnSpec {
            c: u(&c[0]) as u32, buf: u(&c[1]) as usize, chunk_srv: u(&c[2]) as usize, chunk_cli: u(&c[3]) as usize,
            eager: c.get(4).and_then(|x| x.as_u64()).unwrap_or(0) == 1,
        }).collect(),
        calls: v["calls"].as_array().unwrap().iter().map(|c| CallSpec {
            k: u(&c["k"]) as u32,
            c: u(&c["c"]) as u32,
            kind: match c["kind"].as_str().unwrap_or("") {
                "unary" => Kind::Unary,
                "client_stream" => Kind::ClientStream,
                "bidi" => Kind::Bidi,
                _ => Kind::Stream,
            },
            reqs: c["reqs"].as_array().map(|a| a.iter().map(|m| unhex(m.as_str().unwrap())).collect()).unwrap_or_default(),
            msgs: c["msgs"].as_array().unwrap().iter().map(|m| unhex(m.as_str().unwrap())).collect(),
            status: if c["status"].is_null() { None } else {
                Some((c["status"][0].as_i64().unwrap() as i32, c["status"][1].as_str().unwrap().to_string()))
            },
        }).collect(),
        script: v["script"].as_array().unwrap().iter().map(|a| {
            let arg = || u(&a[1]) as u32;
            match a[0].as_str().unwrap() {
                "offer" => Act::Offer(arg()),
                "call" => Act::Call(arg()),
                "gate" => Act::Gate(arg()),
                "cgate" => Act::CGate(arg()),
                "signal" => Act::Signal,
                "end_incoming" => Act::EndIncoming,
                "incoming_error" => Act::IncomingError(arg() == 1),
                "drop_client" => Act::DropClient(arg()),
                "flood" => Act::Flood(arg(), u(&a[2]) as u32),
                "await" => Act::Await(arg()),
                _ => Act::Settle,
            }
        }).collect(),
        max_age_ms: v["max_age_ms"].as_u64(),
        opts: Opts {
            accept_http1: v["opts"]["accept_http1"].as_bool().unwrap_or(false),
            limit: v["opts"]["limit"].as_u64().map(|x| x as usize),
            timeout_ms: v["opts"]["timeout_ms"].as_u64(),
            tcp: v["opts"]["tcp"].as_bool().unwrap_or(false),
        },
    }
}

// ------------------------------------------------------------------ event log
#[derive(Clone, Debug, PartialEq)]
enum Ev {
    /// the listener stream handed connection c to the accept loop
    Accept(u32),
    /// the signal future returned Ready to the accept loop's select!
    Signal,
    /// the listener stream returned None to the accept loop
    IncomingEnd,
    /// the listener stream handed an error to tonic
    IncomingErr,
    /// hyper handed a request of connection c to the service (tower `call`)
    CallStart(u32, u32),
    /// the response of call k was released by hyper; true = its body had been driven to the end
    /// (trailers / end of stream handed over), false = dropped earlier
    CallDone(u32, u32, bool),
    /// the server-side transport object of accepted connection c was dropped
    ConnClosed(u32),
    /// the serve future resolved (Ok?)
    ServeReturned(bool),
    /// nothing moved for 30 virtual seconds after every handler had been let through
    Quiet,
    /// the server wrote a GOAWAY frame on connection c; true = the final one (a real last stream
    /// id, the third field), false = the announcement (last stream id 2^31-1) that
    /// graceful_shutdown starts with
    Goaway(u32, bool, u32),
    // marks written by the script driver (not server events; the oracle relates positions to them)
    MarkSignalFired,
    /// the first quiescent point after the signal was fired
    MarkIdleAfterFire,
    MarkOffered(u32),
    MarkClientDropped(u32),
    /// the permanently ready listener gave up: it had handed out its whole allowance of connections
    /// after the signal had fired and the accept loop was still asking for more
    FloodExhausted,
}
struct Shared {
    log: Mutex<Vec<Ev>>,
    calls: HashMap<u32, CallSpec>,
    gates: HashMap<u32, Arc<Semaphore>>,
    cgates: HashMap<u32, Arc<Semaphore>>,
    /// tcp kinds: client-side local port -> connection id
    ports: Mutex<HashMap<u16, u32>>,
}
impl Shared {
    fn log(&self, e: Ev) {
        self.log.lock().unwrap().push(e);
    }
}

// ------------------------------------------------------------------ raw codec
#[derive(Clone, Copy, Default)]
struct RawCodec;
struct RawEnc;
struct RawDec;
impl Codec for RawCodec {
    type Encode = Vec<u8>;
    type Decode = Vec<u8>;
    type Encoder = RawEnc;
    type Decoder = RawDec;
    fn encoder(&mut self) -> RawEnc {
        RawEnc
    }
    fn decoder(&mut self) -> RawDec {
        RawDec
    }
}
impl Encoder for RawEnc {
    type Item = Vec<u8>;
    type Error = Status;
    fn encode(&mut self, item: Vec<u8>, dst: &mut EncodeBuf<'_>) -> Result<(), Status> {
        dst.put_slice(&item);
        Ok(())
    }
}
impl Decoder for RawDec {
    type Item = Vec<u8>;
    type Error = Status;
    fn decode(&mut self, src: &mut DecodeBuf<'_>) -> Result<Option<Vec<u8>>, Status> {
        let mut v = vec![0u8; src.remaining()];
        src.copy_to_slice(&mut v);
        Ok(Some(v))
    }
}

// ------------------------------------------------------------------ transport
#[derive(Clone, Copy)]
struct ConnId(u32);

/// one end of an in-memory pipe that moves at most `chunk` bytes per read / write
struct FragIo {
    inner: DuplexStream,
    chunk: usize,
    cid: u32,
    /// server end only: set when the accept loop received it; its drop is then logged
    accepted: Option<Arc<Shared>>,
    /// server end only: HTTP/2 frame-header scanner over the bytes the server writes
    wire: WireScan,
}
/// independent scanner of the server's outgoing byte stream (which starts with a frame: a server
/// sends no preface): 9-byte frame headers, then the payload; reports GOAWAY frames
#[derive(Default)]
struct WireScan {
    hdr: Vec<u8>,
    /// payload bytes of the current frame still to come
    left: usize,
    /// GOAWAY payload prefix being collected (last stream id)
    goaway: Option<Vec<u8>>,
}
impl WireScan {
    /// feed written bytes; returns for every GOAWAY seen whether it is the final one, and its
    /// last-stream-id
    fn feed(&mut self, mut b: &[u8]) -> Vec<(bool, u32)> {
        let mut out = vec![];
        while !b.is_empty() {
            if self.left == 0 && self.hdr.len() < 9 {
                let n = (9 - self.hdr.len()).min(b.len());
                self.hdr.extend_from_slice(&b[..n]);
                b = &b[n..];
                if self.hdr.len() == 9 {
                    self.left = ((self.hdr[0] as usize) << 16) | ((self.hdr[1] as usize) << 8) | self.hdr[2] as usize;
                    self.goaway = if self.hdr[3] == 7 { Some(vec![]) } else { None };
                    if self.left == 0 {
                        self.hdr.clear();
                    }
                }
                continue;
            }
            let n = self.left.min(b.len());
            if let Some(g) = &mut self.goaway {
                if g.len() < 4 {
                    let m = (4 - g.len()).min(n);
                    g.extend_from_slice(&b[..m]);
                    if g.len() == 4 {
                        let last = u32::from_be_bytes([g[0], g[1], g[2], g[3]]) & 0x7fff_ffff;
                        out.push((last != 0x7fff_ffff, last));
                    }
                }
            }
            b = &b[n..];
            self.left -= n;
            if self.left == 0 {
                self.hdr.clear();
                self.goaway = None;
            }
        }
        out
    }
}
impl AsyncRead for FragIo {
    fn poll_read(self: Pin<&mut Self>, cx: &mut Context<'_>, buf: &mut ReadBuf<'_>) -> Poll<io::Result<()>> {
        let me = self.get_mut();
        if me.chunk == 0 || buf.remaining() <= me.chunk {
            return Pin::new(&mut me.inner).poll_read(cx, buf);
        }
        let mut tmp = vec![0u8; me.chunk];
        let mut rb = ReadBuf::new(&mut tmp);
        ready!(Pin::new(&mut me.inner).poll_read(cx, &mut rb))?;
        buf.put_slice(rb.filled());
        Poll::Ready(Ok(()))
    }
}
impl AsyncWrite for FragIo {
    fn poll_write(self: Pin<&mut Self>, cx: &mut Context<'_>, data: &[u8]) -> Poll<io::Result<usize>> {
        let me = self.get_mut();
        let n = if me.chunk == 0 { data.len() } else { data.len().min(me.chunk) };
        let r = Pin::new(&mut me.inner).poll_write(cx, &data[..n]);
        if let (Poll::Ready(Ok(w)), Some(sh)) = (&r, &me.accepted) {
            for (fin, last) in me.wire.feed(&data[..*w]) {
                sh.log(Ev::Goaway(me.cid, fin, last));
            }
        }
        r
    }
    fn poll_flush(self: Pin<&mut Self>, cx: &mut Context<'_>) -> Poll<io::Result<()>> {
        Pin::new(&mut self.get_mut().inner).poll_flush(cx)
    }
    fn poll_shutdown(self: Pin<&mut Self>, cx: &mut Context<'_>) -> Poll<io::Result<()>> {
        Pin::new(&mut self.get_mut().inner).poll_shutdown(cx)
    }
}
impl Connected for FragIo {
    type ConnectInfo = ConnId;
    fn connect_info(&self) -> ConnId {
        ConnId(self.cid)
    }
}
impl Drop for FragIo {
    fn drop(&mut self) {
        if let Some(sh) = self.accepted.take() {
            sh.log(Ev::ConnClosed(self.cid));
        }
    }
}

/// first connection id handed out by the permanently ready listener
const FLOOD_BASE: u32 = 1000;
type SigTx = Arc<Mutex<Option<oneshot::Sender<()>>>>;
/// state of the permanently ready listener (`Act::Flood`)
#[derive(Default)]
struct FloodState {
    on: bool,
    pre: u32,
    cap: u32,
    /// connections handed out so far / of these, after the signal had fired
    next: u32,
    after: u32,
    fired: bool,
    /// the accept loop's waker, so that the script can switch the flood on
    waker: Option<std::task::Waker>,
}
/// the listener: an mpsc-fed stream of server ends
struct Incoming {
    rx: mpsc::UnboundedReceiver<Result<FragIo, io::Error>>,
    sh: Arc<Shared>,
    flood: Arc<Mutex<FloodState>>,
    sig_tx: SigTx,
}
impl Stream for Incoming {
    type Item = Result<FragIo, io::Error>;
    fn poll_next(self: Pin<&mut Self>, cx: &mut Context<'_>) -> Poll<Option<Self::Item>> {
        let me = self.get_mut();
        {
            let mut f = me.flood.lock().unwrap();
            f.waker = Some(cx.waker().clone());
            if f.on && f.fired && f.after >= f.cap {
                f.on = false;
                me.sh.log(Ev::FloodExhausted);
            }
            if f.on {
                // always ready: a fresh connection whose peer has already hung up
                let c = FLOOD_BASE + f.next;
                f.next += 1;
                let (cli, srv) = tokio::io::duplex(1024);
                drop(cli);
                me.sh.log(Ev::MarkOffered(c));
                me.sh.log(Ev::MarkClientDropped(c));
                me.sh.log(Ev::Accept(c));
                if f.fired {
                    f.after += 1;
                } else if f.next >= f.pre {
                    // the signal fires now - after this connection was produced
                    f.fired = true;
                    if let Some(t) = me.sig_tx.lock().unwrap().take() {
                        me.sh.log(Ev::MarkSignalFired);
                        let _ = t.send(());
                    }
                }
                let io = FragIo { inner: srv, chunk: 0, cid: c, accepted: Some(me.sh.clone()), wire: WireScan::default() };
                return Poll::Ready(Some(Ok(io)));
            }
        }
        match ready!(me.rx.poll_recv(cx)) {
            Some(Ok(mut io)) => {
                me.sh.log(Ev::Accept(io.cid));
                io.accepted = Some(me.sh.clone());
                Poll::Ready(Some(Ok(io)))
            }
            Some(Err(e)) => {
                me.sh.log(Ev::IncomingErr);
                Poll::Ready(Some(Err(e)))
            }
            None => {
                me.sh.log(Ev::IncomingEnd);
                Poll::Ready(None)
            }
        }
    }
}

/// the shutdown signal; logs the moment it reports Ready to the accept loop
struct Sig {
    rx: oneshot::Receiver<()>,
    sh: Arc<Shared>,
}
impl Future for Sig {
    type Output = ();
    fn poll(self: Pin<&mut Self>, cx: &mut Context<'_>) -> Poll<()> {
        let me = self.get_mut();
        let _ = ready!(Pin::new(&mut me.rx).poll(cx));
        me.sh.log(Ev::Signal);
        Poll::Ready(())
    }
}

// ------------------------------------------------------------------ scripted service
struct DoneGuard {
    sh: Arc<Shared>,
    c: u32,
    k: u32,
    complete: bool,
}
impl Drop for DoneGuard {
    fn drop(&mut self) {
        self.sh.log(Ev::CallDone(self.c, self.k, self.complete));
    }
}
/// response body wrapper: remembers whether the body was driven to its end before being dropped
struct DoneBody {
    inner: tonic::body::Body,
    guard: DoneGuard,
}
impl HttpBody for DoneBody {
    type Data = Bytes;
    type Error = Status;
    fn poll_frame(self: Pin<&mut Self>, cx: &mut Context<'_>) -> Poll<Option<Result<Frame<Bytes>, Status>>> {
        let me = self.get_mut();
        let r = ready!(Pin::new(&mut me.inner).poll_frame(cx));
        match &r {
            None => me.guard.complete = true,
            Some(Ok(f)) if f.is_trailers() => me.guard.complete = true,
            _ => {}
        }
        if me.inner.is_end_stream() {
            me.guard.complete = true;
        }
        Poll::Ready(r)
    }
    fn is_end_stream(&self) -> bool {
        self.inner.is_end_stream()
    }
    fn size_hint(&self) -> http_body::SizeHint {
        self.inner.size_hint()
    }
}

async fn pass(g: &Semaphore) {
    g.acquire().await.expect("gate closed").forget();
}
fn mk_status(s: &(i32, String)) -> Status {
    Status::new(Code::from_i32(s.0), s.1.clone())
}
type BoxFut<T> = Pin<Box<dyn Future<Output = T> + Send>>;
type BoxStream = Pin<Box<dyn Stream<Item = Result<Vec<u8>, Status>> + Send>>;

struct UnaryH(CallSpec, Arc<Semaphore>);
impl tonic::server::UnaryService<Vec<u8>> for UnaryH {
    type Response = Vec<u8>;
    type Future = BoxFut<Result<Response<Vec<u8>>, Status>>;
    fn call(&mut self, _req: Request<Vec<u8>>) -> Self::Future {
        let (spec, gate) = (self.0.clone(), self.1.clone());
        Box::pin(async move {
            pass(&gate).await;
            match &spec.status {
                None => Ok(Response::new(spec.msgs.first().cloned().unwrap_or_default())),
                Some(s) => Err(mk_status(s)),
            }
        })
    }
}
struct StreamH(CallSpec, Arc<Semaphore>);
impl tonic::server::ServerStreamingService<Vec<u8>> for StreamH {
    type Response = Vec<u8>;
    type ResponseStream = BoxStream;
    type Future = BoxFut<Result<Response<BoxStream>, Status>>;
    fn call(&mut self, _req: Request<Vec<u8>>) -> Self::Future {
        let (spec, gate) = (self.0.clone(), self.1.clone());
        Box::pin(async move {
            pass(&gate).await; // response headers
            let st = stream::unfold((0usize, spec, gate), |(i, spec, gate)| async move {
                if i < spec.msgs.len() {
                    pass(&gate).await;
                    let m = spec.msgs[i].clone();
                    Some((Ok(m), (i + 1, spec, gate)))
                } else if i == spec.msgs.len() {
                    pass(&gate).await; // final status
                    match &spec.status {
                        None => None,
                        Some(s) => Some((Err(mk_status(s)), (i + 1, spec, gate))),
                    }
                } else {
                    None
                }
            });
            Ok(Response::new(Box::pin(st) as BoxStream))
        })
    }
}

type ReqStream = tonic::Streaming<Vec<u8>>;
/// read the next request message and compare it with the script
async fn expect_req(rs: &mut ReqStream, want: Option<&Vec<u8>>) -> Result<(), Status> {
    match (rs.message().await, want) {
        (Ok(Some(m)), Some(w)) if m == *w => Ok(()),
        (Ok(None), None) => Ok(()),
        (Err(e), _) => Err(Status::internal(format!("request stream failed: {}", e))),
        _ => Err(Status::internal("request stream differs from what the client sent")),
    }
}
struct ClientStreamH(CallSpec, Arc<Semaphore>);
impl tonic::server::ClientStreamingService<Vec<u8>> for ClientStreamH {
    type Response = Vec<u8>;
    type Future = BoxFut<Result<Response<Vec<u8>>, Status>>;
    fn call(&mut self, req: Request<ReqStream>) -> Self::Future {
        let (spec, gate) = (self.0.clone(), self.1.clone());
        Box::pin(async move {
            let mut rs = req.into_inner();
            for w in &spec.reqs {
                expect_req(&mut rs, Some(w)).await?;
            }
            expect_req(&mut rs, None).await?;
            pass(&gate).await;
            match &spec.status {
                None => Ok(Response::new(spec.msgs.first().cloned().unwrap_or_default())),
                Some(s) => Err(mk_status(s)),
            }
        })
    }
}
struct BidiH(CallSpec, Arc<Semaphore>);
impl tonic::server::StreamingService<Vec<u8>> for BidiH {
    type Response = Vec<u8>;
    type ResponseStream = BoxStream;
    type Future = BoxFut<Result<Response<BoxStream>, Status>>;
    fn call(&mut self, req: Request<ReqStream>) -> Self::Future {
        let (spec, gate) = (self.0.clone(), self.1.clone());
        Box::pin(async move {
            pass(&gate).await; // response headers
            let rs = req.into_inner();
            // state: next response index (usize::MAX = finished), requests read so far
            let st = stream::unfold((0usize, 0usize, rs, spec, gate), |(i, mut nr, mut rs, spec, gate)| async move {
                if i == usize::MAX {
                    return None;
                }
                if i < spec.msgs.len() {
                    if nr < spec.reqs.len() {
                        if let Err(e) = expect_req(&mut rs, Some(&spec.reqs[nr])).await {
                            return Some((Err(e), (usize::MAX, nr, rs, spec, gate)));
                        }
                        nr += 1;
                    }
                    pass(&gate).await;
                    let m = spec.msgs[i].clone();
                    Some((Ok(m), (i + 1, nr, rs, spec, gate)))
                } else {
                    // the rest of the request stream, its end, then the final status
                    while nr <= spec.reqs.len() {
                        if let Err(e) = expect_req(&mut rs, spec.reqs.get(nr)).await {
                            return Some((Err(e), (usize::MAX, nr, rs, spec, gate)));
                        }
                        nr += 1;
                    }
                    pass(&gate).await;
                    match &spec.status {
                        None => None,
                        Some(s) => Some((Err(mk_status(s)), (usize::MAX, nr, rs, spec, gate))),
                    }
                }
            });
            Ok(Response::new(Box::pin(st) as BoxStream))
        })
    }
}

#[derive(Clone)]
struct Svc(Arc<Shared>);
impl tonic::server::NamedService for Svc {
    const NAME: &'static str = "verif.S";
}
impl tower_service::Service<http::Request<tonic::body::Body>> for Svc {
    type Response = http::Response<DoneBody>;
    type Error = std::convert::Infallible;
    type Future = BoxFut<Result<Self::Response, Self::Error>>;
    fn poll_ready(&mut self, _: &mut Context<'_>) -> Poll<Result<(), Self::Error>> {
        Poll::Ready(Ok(()))
    }
    fn call(&mut self, req: http::Request<tonic::body::Body>) -> Self::Future {
        let sh = self.0.clone();
        let c = match req.extensions().get::<ConnId>() {
            Some(c) => c.0,
            None => req
                .extensions()
                .get::<tonic::transport::server::TcpConnectInfo>()
                .and_then(|i| i.remote_addr())
                .and_then(|a| sh.ports.lock().unwrap().get(&a.port()).cloned())
                .unwrap_or(u32::MAX),
        };
        let k = req
            .headers()
            .get("x-k")
            .and_then(|v| v.to_str().ok())
            .and_then(|s| s.parse::<u32>().ok())
            .unwrap_or(u32::MAX);
        sh.log(Ev::CallStart(c, k));
        let mut guard = DoneGuard { sh: sh.clone(), c, k, complete: false };
        let spec = sh.calls.get(&k).cloned();
        let gate = sh.gates.get(&k).cloned();
        let path = req.uri().path().to_string();
        Box::pin(async move {
            let resp = match (spec, gate) {
                (Some(spec), Some(gate)) => {
                    let mut grpc = tonic::server::Grpc::new(RawCodec);
                    match path.as_str() {
                        "/verif.S/Unary" => grpc.unary(UnaryH(spec, gate), req).await,
                        "/verif.S/ClientStream" => grpc.client_streaming(ClientStreamH(spec, gate), req).await,
                        "/verif.S/Bidi" => grpc.streaming(BidiH(spec, gate), req).await,
                        _ => grpc.server_streaming(StreamH(spec, gate), req).await,
                    }
                }
                _ => Status::unimplemented("unknown call").into_http::<tonic::body::Body>(),
            };
            guard.complete = resp.body().is_end_stream();
            Ok(resp.map(|b| DoneBody { inner: b, guard }))
        })
    }
}

// ------------------------------------------------------------------ client side
#[derive(Clone, Debug, PartialEq)]
enum Outcome {
    /// the call ran: messages received, final code, final message
    Done(Vec<Vec<u8>>, i32, String),
    /// the client was taken away by the script
    Aborted,
    /// no answer within the (virtual) time bound
    Hang,
    /// the script never started it (its client had been dropped)
    NotStarted,
    Panicked,
}
fn gated_requests(reqs: Vec<Vec<u8>>, cgate: Arc<Semaphore>) -> impl Stream<Item = Vec<u8>> + Send + 'static {
    stream::unfold((0usize, reqs, cgate), |(i, reqs, cgate)| async move {
        if i < reqs.len() {
            pass(&cgate).await;
            let m = reqs[i].clone();
            Some((m, (i + 1, reqs, cgate)))
        } else if i == reqs.len() {
            pass(&cgate).await; // end of the request stream
            None
        } else {
            None
        }
    })
}
async fn collect(r: Result<Response<tonic::Streaming<Vec<u8>>>, Status>) -> Outcome {
    match r {
        Err(s) => Outcome::Done(vec![], s.code() as i32, s.message().to_string()),
        Ok(r) => {
            let mut st = r.into_inner();
            let mut msgs = vec![];
            loop {
                match st.message().await {
                    Ok(Some(m)) => msgs.push(m),
                    Ok(None) => return Outcome::Done(msgs, 0, String::new()),
                    Err(s) => return Outcome::Done(msgs, s.code() as i32, s.message().to_string()),
                }
            }
        }
    }
}
fn single(r: Result<Response<Vec<u8>>, Status>) -> Outcome {
    match r {
        Ok(r) => Outcome::Done(vec![r.into_inner()], 0, String::new()),
        Err(s) => Outcome::Done(vec![], s.code() as i32, s.message().to_string()),
    }
}
async fn client_call(ch: Channel, spec: CallSpec, cgate: Arc<Semaphore>) -> Outcome {
    let mut g = tonic::client::Grpc::new(ch);
    if let Err(e) = g.ready().await {
        return Outcome::Done(vec![], Code::Unavailable as i32, format!("not ready: {}", e));
    }
    let key: tonic::metadata::MetadataValue<_> = spec.k.to_string().parse().unwrap();
    let path = |p: &'static str| http::uri::PathAndQuery::from_static(p);
    match spec.kind {
        Kind::Unary => {
            let mut req = Request::new(vec![spec.k as u8]);
            req.metadata_mut().insert("x-k", key);
            single(g.unary::<Vec<u8>, Vec<u8>, _>(req, path("/verif.S/Unary"), RawCodec).await)
        }
        Kind::Stream => {
            let mut req = Request::new(vec![spec.k as u8]);
            req.metadata_mut().insert("x-k", key);
            collect(g.server_streaming::<Vec<u8>, Vec<u8>, _>(req, path("/verif.S/Stream"), RawCodec).await).await
        }
        Kind::ClientStream => {
            let mut req = Request::new(gated_requests(spec.reqs.clone(), cgate));
            req.metadata_mut().insert("x-k", key);
            single(g.client_streaming::<_, Vec<u8>, Vec<u8>, _>(req, path("/verif.S/ClientStream"), RawCodec).await)
        }
        Kind::Bidi => {
            let mut req = Request::new(gated_requests(spec.reqs.clone(), cgate));
            req.metadata_mut().insert("x-k", key);
            collect(g.streaming::<_, Vec<u8>, Vec<u8>, _>(req, path("/verif.S/Bidi"), RawCodec).await).await
        }
    }
}

// ------------------------------------------------------------------ one run
struct RunResult {
    log: Vec<Ev>,
    outcomes: BTreeMap<u32, Outcome>,
    /// the serve future resolved while all clients were still around
    serve_returned_in_time: bool,
    /// ... or at least after every client had gone away
    serve_returned_finally: bool,
    /// accepted connections still open 30 (virtual) seconds after the last call had finished,
    /// with "the client had opened the connection" (false = the peer never sent a byte)
    stalled_open: Vec<(u32, bool)>,
}
async fn settle() {
    // time is paused: the clock only moves when every task is idle, so this is a quiescence barrier
    tokio::time::sleep(Duration::from_millis(1)).await;
}
fn mk_shared(scn: &Scenario) -> Arc<Shared> {
    Arc::new(Shared {
        log: Mutex::new(vec![]),
        calls: scn.calls.iter().map(|c| (c.k, c.clone())).collect(),
        gates: scn.calls.iter().map(|c| (c.k, Arc::new(Semaphore::new(0)))).collect(),
        cgates: scn.calls.iter().map(|c| (c.k, Arc::new(Semaphore::new(0)))).collect(),
        ports: Mutex::new(HashMap::new()),
    })
}
fn mk_builder(scn: &Scenario) -> Server {
    let mut b = Server::builder();
    if let Some(ms) = scn.max_age_ms {
        b = b.max_connection_age(Duration::from_millis(ms));
    }
    if scn.opts.accept_http1 {
        b = b.accept_http1(true);
    }
    if let Some(n) = scn.opts.limit {
        b = b.concurrency_limit_per_connection(n);
    }
    if let Some(ms) = scn.opts.timeout_ms {
        b = b.timeout(Duration::from_millis(ms));
    }
    b
}
async fn run_case(scn: Scenario) -> RunResult {
    let sh = mk_shared(&scn);
    let (inc_tx, inc_rx) = mpsc::unbounded_channel::<Result<FragIo, io::Error>>();
    let mut inc_tx = Some(inc_tx);
    let (sig_tx, sig_rx) = oneshot::channel::<()>();
    // shared with the permanently ready listener, which fires the signal itself
    let sig_tx: SigTx = Arc::new(Mutex::new(Some(sig_tx)));
    let flood = Arc::new(Mutex::new(FloodState::default()));
    let mut kept_sig_tx = None; // a fired sender is consumed; an unfired one must stay alive
    let serve = mk_builder(&scn).add_service(Svc(sh.clone())).serve_with_incoming_shutdown(
        Incoming { rx: inc_rx, sh: sh.clone(), flood: flood.clone(), sig_tx: sig_tx.clone() },
        Sig { rx: sig_rx, sh: sh.clone() },
    );
    let sh2 = sh.clone();
    let serve_h = tokio::spawn(async move {
        let r = serve.await;
        sh2.log(Ev::ServeReturned(r.is_ok()));
    });

    let mut channels: HashMap<u32, tokio::sync::watch::Receiver<Option<Result<Channel, String>>>> = HashMap::new();
    let mut tasks: BTreeMap<u32, tokio::task::JoinHandle<Outcome>> = BTreeMap::new();
    let mut outcomes: BTreeMap<u32, Outcome> = BTreeMap::new();
    let mut shutdown_begun = false;
    let mut fired_unsettled = false;
    let mut flood_idle_marked = false;
    let mut eager_tasks: HashMap<u32, tokio::task::JoinHandle<()>> = HashMap::new();
    let mut spoke: HashMap<u32, Arc<std::sync::atomic::AtomicBool>> = HashMap::new();
    for act in &scn.script {
        match act {
            Act::Offer(c) => {
                let spec = scn.conns.iter().find(|x| x.c == *c).expect("conn spec").clone();
                let (cli, srv) = tokio::io::duplex(spec.buf);
                sh.log(Ev::MarkOffered(*c));
                if let Some(tx) = &inc_tx {
                    let _ = tx.send(Ok(FragIo { inner: srv, chunk: spec.chunk_srv, cid: *c, accepted: None, wire: WireScan::default() }));
                }
                let slot = Arc::new(Mutex::new(Some(FragIo { inner: cli, chunk: spec.chunk_cli, cid: *c, accepted: None, wire: WireScan::default() })));
                let flag = Arc::new(std::sync::atomic::AtomicBool::new(false));
                spoke.insert(*c, flag.clone());
                let connector = tower::service_fn(move |_: http::Uri| {
                    let io = slot.lock().unwrap().take();
                    flag.store(true, std::sync::atomic::Ordering::SeqCst);
                    async move {
                        io.map(TokioIo::new)
                            .ok_or_else(|| io::Error::new(io::ErrorKind::ConnectionRefused, "no more connections"))
                    }
                });
                let ep = Endpoint::from_static("http://verif.invalid");
                let (tx, rx) = tokio::sync::watch::channel::<Option<Result<Channel, String>>>(None);
                if spec.eager {
                    // open the connection now (HTTP/2 preface and settings go out at once)
                    eager_tasks.insert(
                        *c,
                        tokio::spawn(async move {
                            let r = ep.connect_with_connector(connector).await.map_err(|e| e.to_string());
                            let _ = tx.send(Some(r));
                            std::future::pending::<()>().await;
                        }),
                    );
                } else {
                    let _ = tx.send(Some(Ok(ep.connect_with_connector_lazy(connector))));
                    eager_tasks.insert(*c, tokio::spawn(async move { tx.closed().await }));
                }
                channels.insert(*c, rx);
            }
            Act::Call(k) => {
                let spec = sh.calls[k].clone();
                match channels.get(&spec.c) {
                    Some(ch) => {
                        let cg = sh.cgates[k].clone();
                        let mut rx = ch.clone();
                        tasks.insert(
                            *k,
                            tokio::spawn(async move {
                                let got = match rx.wait_for(|v| v.is_some()).await {
                                    Ok(v) => v.clone().unwrap(),
                                    Err(_) => Err("client gone".to_string()),
                                };
                                match got {
                                    Ok(ch) => client_call(ch, spec, cg).await,
                                    Err(e) => Outcome::Done(vec![], Code::Unavailable as i32, format!("connect failed: {}", e)),
                                }
                            }),
                        );
                    }
                    None => {
                        outcomes.insert(*k, Outcome::NotStarted);
                    }
                }
            }
            Act::Gate(k) => sh.gates[k].add_permits(1),
            Act::CGate(k) => sh.cgates[k].add_permits(1),
            Act::Signal => {
                shutdown_begun = true;
                if let Some(t) = sig_tx.lock().unwrap().take() {
                    sh.log(Ev::MarkSignalFired);
                    fired_unsettled = true;
                    let _ = t.send(());
                }
            }
            Act::Flood(pre, cap) => {
                shutdown_begun = true;
                let w = {
                    let mut f = flood.lock().unwrap();
                    f.on = true;
                    f.pre = (*pre).max(1);
                    f.cap = *cap;
                    f.waker.take()
                };
                if let Some(w) = w {
                    w.wake();
                }
            }
            Act::Await(_) => {}
            Act::EndIncoming => {
                shutdown_begun = true;
                inc_tx = None;
            }
            Act::IncomingError(transient) => {
                if let Some(tx) = &inc_tx {
                    let kind = if *transient { io::ErrorKind::ConnectionAborted } else { io::ErrorKind::Other };
                    let _ = tx.send(Err(io::Error::new(kind, "scripted accept error")));
                }
            }
            Act::DropClient(c) => {
                sh.log(Ev::MarkClientDropped(*c));
                channels.remove(c);
                if let Some(h) = eager_tasks.remove(c) {
                    h.abort();
                }
                for spec in scn.calls.iter().filter(|s| s.c == *c) {
                    if let Some(h) = tasks.get(&spec.k) {
                        h.abort();
                    }
                }
            }
            Act::Settle => {
                settle().await;
                if flood.lock().unwrap().fired && !flood_idle_marked {
                    // the listener fired the signal during this stretch
                    flood_idle_marked = true;
                    fired_unsettled = true;
                }
                if fired_unsettled {
                    fired_unsettled = false;
                    sh.log(Ev::MarkIdleAfterFire);
                }
            }
        }
    }
    if !shutdown_begun {
        if let Some(t) = sig_tx.lock().unwrap().take() {
            sh.log(Ev::MarkSignalFired);
            fired_unsettled = true;
            let _ = t.send(());
        }
    }
    if let Some(t) = sig_tx.lock().unwrap().take() {
        kept_sig_tx = Some(t);
    }
    // drain: open the remaining gates one phase at a time
    let rounds = scn.calls.iter().map(|c| c.phases()).max().unwrap_or(0) + 1;
    let rounds = rounds.max(scn.calls.iter().map(|c| c.client_phases()).max().unwrap_or(0) + 1);
    for _ in 0..rounds {
        settle().await;
        if flood.lock().unwrap().fired && !flood_idle_marked {
            flood_idle_marked = true;
            fired_unsettled = true;
        }
        if fired_unsettled {
            fired_unsettled = false;
            sh.log(Ev::MarkIdleAfterFire);
        }
        for g in sh.gates.values() {
            g.add_permits(1);
        }
        for g in sh.cgates.values() {
            g.add_permits(1);
        }
    }
    settle().await;
    let mut serve_h = serve_h;
    let serve_returned_in_time = tokio::time::timeout(Duration::from_secs(30), &mut serve_h).await.is_ok();
    let mut serve_returned_finally = serve_returned_in_time;
    let mut stalled_open = vec![];
    if !serve_returned_in_time {
        // the shutdown is stalled: note which accepted connections are still open, then let every
        // client go away and see whether the serve future resolves at least then
        {
            let log = sh.log.lock().unwrap();
            for e in log.iter() {
                if let Ev::Accept(c) = e {
                    if !log.contains(&Ev::ConnClosed(*c)) {
                        let sp = spoke.get(c).map(|f| f.load(std::sync::atomic::Ordering::SeqCst)).unwrap_or(false);
                        stalled_open.push((*c, sp));
                    }
                }
            }
        }
        sh.log(Ev::Quiet);
        let mut cs: Vec<u32> = channels.keys().cloned().collect();
        cs.sort();
        for c in cs {
            sh.log(Ev::MarkClientDropped(c));
        }
        channels.clear();
        for (_, h) in eager_tasks.drain() {
            h.abort();
        }
        settle().await;
        serve_returned_finally = tokio::time::timeout(Duration::from_secs(30), &mut serve_h).await.is_ok();
    }
    for (k, h) in tasks {
        let o = match tokio::time::timeout(Duration::from_secs(30), h).await {
            Ok(Ok(o)) => o,
            Ok(Err(e)) if e.is_cancelled() => Outcome::Aborted,
            Ok(Err(_)) => Outcome::Panicked,
            Err(_) => Outcome::Hang,
        };
        outcomes.insert(k, o);
    }
    drop(kept_sig_tx);
    drop(eager_tasks);
    drop(channels);
    drop(inc_tx);
    let log = sh.log.lock().unwrap().clone();
    RunResult { log, outcomes, serve_returned_in_time, serve_returned_finally, stalled_open }
}

/// poll the log (real time) until `pred` holds; false after `max_ms`
async fn wait_log(sh: &Shared, max_ms: u64, pred: impl Fn(&[Ev]) -> bool) -> bool {
    let t0 = std::time::Instant::now();
    loop {
        if pred(&sh.log.lock().unwrap()) {
            return true;
        }
        if t0.elapsed() > Duration::from_millis(max_ms) {
            return false;
        }
        tokio::time::sleep(Duration::from_millis(1)).await;
    }
}
/// The tcp kinds: `Router::serve_with_shutdown(addr, signal)` on 127.0.0.1, real tonic clients over
/// real sockets, real time.  The listener and the server's transport objects are tonic's own, so
/// accepts, GOAWAY frames and connection closes are not observable; what is: the signal, the
/// application-level start and end of every call, the callers' outcomes, the return of the serve
/// future.  Pacing sleeps only shape the schedule - every wait the verdict depends on is on an
/// event (a call has started, the signal was observed, a caller has its outcome).
async fn run_tcp(scn: Scenario) -> RunResult {
    let sh = mk_shared(&scn);
    // a free port: bind port 0, note the port, release it, let tonic bind it.  Should somebody else
    // take it in between (serve returns Err at once), start over with another one.
    let mut attempt = 0;
    let (mut sig_tx, addr, mut serve_h) = loop {
        let (sig_tx, sig_rx) = oneshot::channel::<()>();
        let port = {
            let l = std::net::TcpListener::bind("127.0.0.1:0").expect("bind 127.0.0.1:0");
            l.local_addr().unwrap().port()
        };
        let addr: std::net::SocketAddr = ([127, 0, 0, 1], port).into();
        let serve = mk_builder(&scn).add_service(Svc(sh.clone())).serve_with_shutdown(addr, Sig { rx: sig_rx, sh: sh.clone() });
        let sh2 = sh.clone();
        let serve_h = tokio::spawn(async move {
            let r = serve.await;
            sh2.log(Ev::ServeReturned(r.is_ok()));
        });
        tokio::time::sleep(Duration::from_millis(5)).await;
        attempt += 1;
        if serve_h.is_finished() && attempt < 5 {
            sh.log.lock().unwrap().clear();
            continue;
        }
        break (Some(sig_tx), addr, serve_h);
    };
    let mut channels: HashMap<u32, Result<Channel, String>> = HashMap::new();
    let mut tasks: BTreeMap<u32, tokio::task::JoinHandle<Outcome>> = BTreeMap::new();
    let mut outcomes: BTreeMap<u32, Outcome> = BTreeMap::new();
    let mut shutdown_begun = false;
    let pace = || tokio::time::sleep(Duration::from_millis(2));
    // a refused connect is retried only while the server may still be about to listen
    let may_come_up = Arc::new(std::sync::atomic::AtomicBool::new(true));
    for act in &scn.script {
        match act {
            Act::Offer(c) => {
                sh.log(Ev::MarkOffered(*c));
                let (sh3, c3, up) = (sh.clone(), *c, may_come_up.clone());
                let connector = tower::service_fn(move |_: http::Uri| {
                    let sh = sh3.clone();
                    let up = up.clone();
                    async move {
                        let mut n = 0;
                        loop {
                            match tokio::net::TcpStream::connect(addr).await {
                                Ok(s) => {
                                    if let Ok(a) = s.local_addr() {
                                        sh.ports.lock().unwrap().insert(a.port(), c3);
                                    }
                                    return Ok::<_, io::Error>(TokioIo::new(s));
                                }
                                // the server may not be listening yet
                                Err(_) if up.load(std::sync::atomic::Ordering::SeqCst) && n < 400 => {
                                    n += 1;
                                    tokio::time::sleep(Duration::from_millis(5)).await;
                                }
                                Err(e) => return Err(e),
                            }
                        }
                    }
                });
                let ep = Endpoint::from_static("http://verif.invalid");
                let r = tokio::time::timeout(Duration::from_secs(10), ep.connect_with_connector(connector)).await;
                channels.insert(
                    *c,
                    match r {
                        Ok(Ok(ch)) => Ok(ch),
                        Ok(Err(e)) => Err(e.to_string()),
                        Err(_) => Err("connect timed out".into()),
                    },
                );
            }
            Act::Call(k) => {
                let spec = sh.calls[k].clone();
                let cg = sh.cgates[k].clone();
                match channels.get(&spec.c).cloned() {
                    Some(Ok(ch)) => {
                        tasks.insert(*k, tokio::spawn(async move { client_call(ch, spec, cg).await }));
                    }
                    Some(Err(e)) => {
                        outcomes.insert(*k, Outcome::Done(vec![], Code::Unavailable as i32, format!("connect failed: {}", e)));
                    }
                    None => {
                        outcomes.insert(*k, Outcome::NotStarted);
                    }
                }
                let kk = *k;
                if !shutdown_begun {
                    wait_log(&sh, 5000, |l| l.iter().any(|e| matches!(e, Ev::CallStart(_, x) if *x == kk))).await;
                } else {
                    tokio::time::sleep(Duration::from_millis(20)).await;
                }
            }
            Act::Gate(k) => {
                sh.gates[k].add_permits(1);
                pace().await;
            }
            Act::CGate(k) => {
                sh.cgates[k].add_permits(1);
                pace().await;
            }
            Act::Signal => {
                shutdown_begun = true;
                may_come_up.store(false, std::sync::atomic::Ordering::SeqCst);
                if let Some(t) = sig_tx.take() {
                    sh.log(Ev::MarkSignalFired);
                    let _ = t.send(());
                    wait_log(&sh, 5000, |l| l.contains(&Ev::Signal)).await;
                }
            }
            Act::Await(k) => {
                if let Some(h) = tasks.remove(k) {
                    let o = match tokio::time::timeout(Duration::from_secs(10), h).await {
                        Ok(Ok(o)) => o,
                        Ok(Err(_)) => Outcome::Panicked,
                        Err(_) => Outcome::Hang,
                    };
                    outcomes.insert(*k, o);
                }
            }
            Act::Settle => pace().await,
            // the listener is tonic's own here, and clients stay
            Act::EndIncoming | Act::IncomingError(_) | Act::DropClient(_) | Act::Flood(..) => {}
        }
    }
    may_come_up.store(false, std::sync::atomic::Ordering::SeqCst);
    if let Some(t) = sig_tx.take() {
        sh.log(Ev::MarkSignalFired);
        let _ = t.send(());
        wait_log(&sh, 5000, |l| l.contains(&Ev::Signal)).await;
    }
    let rounds = scn.calls.iter().map(|c| c.phases().max(c.client_phases())).max().unwrap_or(0) + 1;
    for _ in 0..rounds {
        pace().await;
        for g in sh.gates.values() {
            g.add_permits(1);
        }
        for g in sh.cgates.values() {
            g.add_permits(1);
        }
    }
    let serve_returned_in_time = tokio::time::timeout(Duration::from_secs(20), &mut serve_h).await.is_ok();
    for (k, h) in tasks {
        let o = match tokio::time::timeout(Duration::from_secs(10), h).await {
            Ok(Ok(o)) => o,
            Ok(Err(e)) if e.is_cancelled() => Outcome::Aborted,
            Ok(Err(_)) => Outcome::Panicked,
            Err(_) => Outcome::Hang,
        };
        outcomes.insert(k, o);
    }
    drop(channels);
    let serve_returned_finally =
        serve_returned_in_time || tokio::time::timeout(Duration::from_secs(5), &mut serve_h).await.is_ok();
    let log = sh.log.lock().unwrap().clone();
    RunResult { log, outcomes, serve_returned_in_time, serve_returned_finally, stalled_open: vec![] }
}

fn run_blocking(scn: &Scenario) -> Result<RunResult, String> {
    let scn = scn.clone();
    catch(move || {
        let mut b = tokio::runtime::Builder::new_current_thread();
        b.enable_all();
        if !scn.opts.tcp {
            b.start_paused(true);
        }
        let rt = b.build().unwrap();
        let r = if scn.opts.tcp { rt.block_on(run_tcp(scn)) } else { rt.block_on(run_case(scn)) };
        drop(rt);
        r
    })
}

// ------------------------------------------------------------------ abstraction + oracle
fn pos(log: &[Ev], e: &Ev) -> Option<usize> {
    log.iter().position(|x| x == e)
}
/// the model's event vocabulary (Model/Shutdown.v, type `ev`)
///
/// EGoawayFinal c stands for "the final GOAWAY of c is in force": the frame is on the wire AND every
/// stream it covers has been handed to the service.  h2 counts a stream it has already received
/// into the frame's last-stream-id, and hyper hands that stream to the service right afterwards
/// (same poll), so the frame alone can precede the start of a call it covers.  Streams of one
/// connection carry the ids 1, 3, 5, ... in the order in which they reach the service, so a frame
/// with last-stream-id L covers the first (L+1)/2 calls of the connection; the event is emitted
/// after the last of them has started (or right before the connection closes, should it close
/// first).  A call that starts beyond what the frame covers comes after the event and is
/// rejected by the model (law 1 of hyper_contract).
fn abstract_trace(log: &[Ev]) -> Vec<String> {
    let mut out = vec![];
    let mut dropped_clients: BTreeSet<u32> = BTreeSet::new();
    let mut closed: BTreeSet<u32> = BTreeSet::new();
    let mut started: HashMap<u32, u32> = HashMap::new();
    // connection -> number of calls the final GOAWAY written on it covers, while some are still to start
    let mut final_pending: HashMap<u32, u32> = HashMap::new();
    for e in log {
        if let Ev::ConnClosed(c) = e {
            if final_pending.remove(c).is_some() {
                out.push(format!("EGoawayFinal {}", c));
            }
        }
        match e {
            Ev::Accept(c) => out.push(format!("EAccept {}", c)),
            Ev::Signal => out.push("ESignal".into()),
            Ev::IncomingEnd => out.push("EIncomingEnd".into()),
            Ev::IncomingErr => out.push("EIncomingErr".into()),
            // a call that was waiting behind the concurrency limit can reach the application after
            // its caller and its connection are gone: part of the abort, like the end of such a call
            Ev::CallStart(c, _) if dropped_clients.contains(c) && closed.contains(c) => {}
            Ev::CallStart(c, k) => {
                out.push(format!("ECallStart {} {}", c, k));
                let n = started.entry(*c).or_insert(0);
                *n += 1;
                if final_pending.get(c).map(|cov| *n >= *cov).unwrap_or(false) {
                    final_pending.remove(c);
                    out.push(format!("EGoawayFinal {}", c));
                }
            }
            Ev::CallDone(c, k, true) => {
                // after its caller and the connection are gone the handler's end is part of the abort
                if !(dropped_clients.contains(c) && closed.contains(c)) {
                    out.push(format!("ECallDone {} {}", c, k));
                }
            }
            Ev::CallDone(c, k, false) => {
                if dropped_clients.contains(c) {
                    // cancelled by its own caller: leaves the in-flight set before the connection
                    // is gone, or is part of the abort afterwards
                    if !closed.contains(c) {
                        out.push(format!("ECallDone {} {}", c, k));
                    }
                } else {
                    out.push(format!("ECallDropped {} {}", c, k));
                }
            }
            Ev::ConnClosed(c) => {
                closed.insert(*c);
                if dropped_clients.contains(c) {
                    out.push(format!("EPeerAbort {}", c));
                } else {
                    out.push(format!("EConnClosed {}", c));
                }
            }
            Ev::ServeReturned(_) => out.push("EServeReturned".into()),
            Ev::Quiet => out.push("EQuiet".into()),
            Ev::Goaway(c, false, _) => out.push(format!("EGoaway {}", c)),
            Ev::Goaway(c, true, last) => {
                let covered = (*last + 1) / 2;
                if started.get(c).cloned().unwrap_or(0) >= covered {
                    out.push(format!("EGoawayFinal {}", c));
                } else {
                    final_pending.insert(*c, covered);
                }
            }
            Ev::MarkSignalFired => out.push("ESignalFired".into()),
            Ev::MarkIdleAfterFire => out.push("EIdleAfterFire".into()),
            Ev::MarkClientDropped(c) => {
                dropped_clients.insert(*c);
            }
            Ev::MarkOffered(_) | Ev::FloodExhausted => {}
        }
    }
    out
}

/// the property judged directly on what the implementation did
fn oracle(scn: &Scenario, r: &RunResult) -> Option<String> {
    let log = &r.log;
    let tcp = scn.opts.tcp;
    let aborted = |k: &u32| matches!(r.outcomes.get(k), Some(Outcome::Aborted));
    let serve_at = log.iter().position(|e| matches!(e, Ev::ServeReturned(_)));
    // the serve future resolves, once, with Ok - as soon as the connections have closed.  A
    // connection whose peer never sent a byte is the one thing the server keeps waiting for.
    if !r.serve_returned_in_time {
        if tcp {
            return Some("tcp: the serve future did not resolve within 20 s of the signal although every handler had been let through".into());
        }
        if r.stalled_open.is_empty() {
            return Some("every connection had closed but the serve future did not resolve".into());
        }
        if let Some((c, _)) = r.stalled_open.iter().find(|(_, spoke)| *spoke) {
            return Some(format!(
                "connection {} was idle after the signal but was never closed; the serve future did not resolve",
                c
            ));
        }
    }
    if !r.serve_returned_finally || serve_at.is_none() {
        return Some("the serve future did not resolve even after every client had gone away".into());
    }
    let serve_at = serve_at.unwrap();
    if log.iter().filter(|e| matches!(e, Ev::ServeReturned(_))).count() != 1 || log[serve_at] != Ev::ServeReturned(true) {
        return Some("the serve future did not resolve exactly once with Ok".into());
    }
    if log.iter().filter(|e| **e == Ev::Signal).count() > 1 {
        return Some("the signal was observed twice".into());
    }
    // a fired signal is observed by the time the server is idle again
    if let Some(i) = pos(log, &Ev::MarkIdleAfterFire) {
        if !log[..i].iter().any(|e| matches!(e, Ev::Signal | Ev::IncomingEnd)) {
            return Some("the signal had fired and the server had gone idle, but the accept loop had not observed it".into());
        }
    }
    // NO CONNECTION IS ACCEPTED AFTER THE SIGNAL - counted from the moment the signal FIRED (the
    // user's future became ready), not from the moment the accept loop got round to looking at it
    if let Some(f) = pos(log, &Ev::MarkSignalFired) {
        let late: Vec<u32> = log[f..].iter().filter_map(|e| if let Ev::Accept(c) = e { Some(*c) } else { None }).collect();
        if log.contains(&Ev::FloodExhausted) {
            return Some(format!(
                "the listener stayed ready and the signal was starved: {} connections were accepted after the signal had fired",
                late.len()
            ));
        }
        if let Some(c) = late.first() {
            return Some(format!(
                "connection {} was accepted after the signal had fired ({} connections in all)",
                c,
                late.len()
            ));
        }
    }
    // nothing is accepted once the accept loop saw the signal (or the end of the listener)
    let stop_at = log.iter().position(|e| matches!(e, Ev::Signal | Ev::IncomingEnd));
    if let Some(s) = stop_at {
        if let Some(Ev::Accept(c)) = log[s..].iter().find(|e| matches!(e, Ev::Accept(_))) {
            return Some(format!("connection {} was accepted after the signal", c));
        }
        if log[s..].iter().any(|e| matches!(e, Ev::IncomingErr)) {
            return Some("the listener was still polled after the signal".into());
        }
        for (i, e) in log.iter().enumerate() {
            if let Ev::MarkOffered(c) = e {
                if i > s {
                    if log.iter().any(|x| matches!(x, Ev::Accept(d) if d == c) || matches!(x, Ev::CallStart(d, _) if d == c)) {
                        return Some(format!("connection {} offered after the signal was served", c));
                    }
                }
            }
        }
    }
    // the serve future resolves only after every accepted connection has closed
    for e in log {
        if let Ev::Accept(c) = e {
            match pos(log, &Ev::ConnClosed(*c)) {
                Some(p) if p < serve_at => {}
                _ => return Some(format!("serve returned before connection {} had closed", c)),
            }
        }
    }
    if let Some(e) = log[serve_at..].iter().find(|e| matches!(e, Ev::CallStart(..) | Ev::CallDone(..) | Ev::Accept(_))) {
        return Some(format!("server activity after serve returned: {:?}", e));
    }
    // every accepted call ran to completion and its caller got the scripted outcome
    let mut accepted: BTreeSet<u32> = BTreeSet::new();
    for e in log {
        if let Ev::CallStart(c, k) = e {
            if !accepted.insert(*k) {
                return Some(format!("call {} started twice", k));
            }
            let spec = match scn.calls.iter().find(|s| s.k == *k) {
                Some(s) if s.c == *c => s,
                _ => return Some(format!("call {} arrived on connection {}", k, c)),
            };
            if aborted(k) {
                continue; // its own caller walked away before the end: nothing is owed
            }
            let done = pos(log, &Ev::CallDone(*c, *k, true));
            let closed = pos(log, &Ev::ConnClosed(*c));
            match (done, closed) {
                (Some(d), Some(cl)) if d < cl && d < serve_at => {}
                // over TCP the server's transport object is tonic's own: its drop is not observable
                (Some(d), None) if tcp && d < serve_at => {}
                (None, _) => return Some(format!("accepted call {} on connection {} was dropped before it completed", k, c)),
                _ => return Some(format!("connection {} closed (or serve returned) before accepted call {} completed", c, k)),
            }
            let want = Outcome::Done(
                spec.msgs.clone(),
                spec.status.as_ref().map(|s| s.0).unwrap_or(0),
                spec.status.as_ref().map(|s| s.1.clone()).unwrap_or_default(),
            );
            match r.outcomes.get(k) {
                Some(o) if *o == want => {}
                o => return Some(format!("accepted call {}: caller got {:?}, handler produced {:?}", k, o, want)),
            }
        }
    }
    // calls that were never accepted must fail cleanly: an error, no data, no hang
    for spec in &scn.calls {
        if accepted.contains(&spec.k) || aborted(&spec.k) {
            continue;
        }
        match r.outcomes.get(&spec.k) {
            Some(Outcome::Done(m, code, _)) if m.is_empty() && *code != 0 => {}
            Some(Outcome::NotStarted) | None => {}
            o => return Some(format!("call {} was never accepted but its caller got {:?}", spec.k, o)),
        }
    }
    None
}

fn outcome_tr(spec: &CallSpec, accepted: bool, o: Option<&Outcome>) -> Tr {
    let k = Tr::n(spec.k);
    match o {
        Some(Outcome::Done(m, code, msg)) => {
            if !accepted && m.is_empty() && *code != 0 {
                // refused: code and text are the client stack's business
                Tr::L(vec![k, Tr::n(0u32)])
            } else {
                Tr::L(vec![
                    k,
                    Tr::n(1u32),
                    Tr::L(m.iter().map(|x| Tr::b(x)).collect()),
                    Tr::n(*code as u32),
                    Tr::s(msg),
                ])
            }
        }
        Some(Outcome::NotStarted) | None => Tr::L(vec![k, Tr::n(0u32)]),
        Some(Outcome::Aborted) => Tr::L(vec![k, Tr::n(2u32)]),
        Some(Outcome::Hang) => Tr::L(vec![k, Tr::n(4u32)]),
        Some(Outcome::Panicked) => Tr::L(vec![k, Tr::n(5u32)]),
    }
}

fn coq_call(spec: &CallSpec) -> String {
    format!(
        "(mkCall {} {} {} {} {})",
        spec.c,
        spec.k,
        coq_list(&spec.msgs, |m| coq_bytes(m)),
        spec.status.as_ref().map(|s| s.0).unwrap_or(0),
        coq_bytes(spec.status.as_ref().map(|s| s.1.as_bytes()).unwrap_or(b"")),
    )
}

fn push_case(out: &mut Out, kind: &str, scn: &Scenario) {
    let input = scn_json(scn);
    for a in &scn.script {
        out.hist(
            "script_action",
            match a {
                Act::Offer(_) => "offer",
                Act::Call(_) => "call",
                Act::Gate(_) => "gate",
                Act::CGate(_) => "cgate",
                Act::Signal => "signal",
                Act::EndIncoming => "end_incoming",
                Act::IncomingError(_) => "incoming_error",
                Act::DropClient(_) => "drop_client",
                Act::Settle => "settle",
                Act::Flood(..) => "flood",
                Act::Await(_) => "await",
            },
        );
    }
    out.hist(
        "builder_options",
        format!(
            "http1={} limit={} timeout={} age={} tcp={}",
            scn.opts.accept_http1 as u8,
            scn.opts.limit.is_some() as u8,
            scn.opts.timeout_ms.is_some() as u8,
            scn.max_age_ms.is_some() as u8,
            scn.opts.tcp as u8
        ),
    );
    out.hist("calls", scn.calls.len());
    out.hist("conns", scn.conns.len());
    for c in &scn.conns {
        out.hist("chunk_srv", c.chunk_srv);
        out.hist("pipe_buf", c.buf);
    }
    match run_blocking(scn) {
        Err(p) => {
            out.push(Case {
                kind: kind.into(),
                input,
                model: "(Nd [])".into(),
                impl_obs: Tr::L(vec![Tr::s("panic")]),
                oracle: Some(format!("panic: {}", p)),
                nontrivial: false,
            });
        }
        Ok(r) => {
            let tr = abstract_trace(&r.log);
            let aborted: Vec<u32> =
                r.outcomes.iter().filter(|(_, o)| **o == Outcome::Aborted).map(|(k, _)| *k).collect();
            out.hist(
                "shutdown_waited_for_silent_connection",
                !r.serve_returned_in_time && r.stalled_open.iter().all(|(_, s)| !*s),
            );
            let accepted: BTreeSet<u32> =
                r.log.iter().filter_map(|e| if let Ev::CallStart(_, k) = e { Some(*k) } else { None }).collect();
            // classify where the signal fell
            let stop = r.log.iter().position(|e| matches!(e, Ev::Signal | Ev::IncomingEnd));
            let mut inflight_at_signal = 0;
            if let Some(s) = stop {
                for e in &r.log[..s] {
                    match e {
                        Ev::CallStart(..) => inflight_at_signal += 1,
                        Ev::CallDone(..) => inflight_at_signal -= 1,
                        _ => {}
                    }
                }
            }
            out.hist("inflight_when_signal_observed", inflight_at_signal);
            if let (Some(f), Some(o)) = (pos(&r.log, &Ev::MarkSignalFired), pos(&r.log, &Ev::Signal)) {
                let acc = r.log[f..o].iter().filter(|e| matches!(e, Ev::Accept(_))).count();
                let offered = r.log[f..o].iter().filter(|e| matches!(e, Ev::MarkOffered(_))).count();
                if kind.contains("signal_vs_accept") {
                    // connections offered in the same scheduler tick as the signal
                    let sp = scn.script.iter().position(|a| *a == Act::Signal).unwrap_or(0);
                    let lo = scn.script[..sp].iter().rposition(|a| *a == Act::Settle).map(|i| i + 1).unwrap_or(0);
                    let hi = scn.script[sp..].iter().position(|a| *a == Act::Settle).map(|i| sp + i).unwrap_or(scn.script.len());
                    let ready = scn.script[lo..hi].iter().filter(|a| matches!(a, Act::Offer(_))).count();
                    let acc_tick = {
                        // accepts of those connections, before or after the observation
                        let offered: BTreeSet<u32> = scn.script[lo..hi].iter().filter_map(|a| if let Act::Offer(c) = a { Some(*c) } else { None }).collect();
                        r.log.iter().filter(|e| matches!(e, Ev::Accept(c) if offered.contains(c))).count()
                    };
                    out.hist("race:ready_with_signal=>accepted", format!("{:02}=>{:02}", ready, acc_tick));
                }
                let _ = (acc, offered);
            }
            for e in &r.log {
                if let Ev::Goaway(_, fin, _) = e {
                    out.hist("goaway_frames", if *fin { "final" } else { "announce" });
                }
            }
            {
                // calls that hyper admitted after the GOAWAY announcement (the two-GOAWAY window)
                let mut ann: BTreeSet<u32> = BTreeSet::new();
                let mut n = 0;
                for e in &r.log {
                    match e {
                        Ev::Goaway(c, false, _) => {
                            ann.insert(*c);
                        }
                        Ev::CallStart(c, _) if ann.contains(c) => n += 1,
                        _ => {}
                    }
                }
                out.hist("calls_admitted_after_goaway_announcement", n);
                let told_before_signal = match stop {
                    Some(s) => r.log[..s].iter().any(|e| matches!(e, Ev::Goaway(_, false, _))),
                    None => false,
                };
                out.hist("goaway_before_signal_observed(max_connection_age)", told_before_signal);
            }
            for c in &scn.calls {
                out.hist("call_kind", c.kind.name());
            }
            {
                // final GOAWAY frames written before a call they cover was handed to the service
                let mut st: HashMap<u32, u32> = HashMap::new();
                let mut n = 0;
                for e in &r.log {
                    match e {
                        Ev::CallStart(c, _) => *st.entry(*c).or_insert(0) += 1,
                        Ev::Goaway(c, true, last) if st.get(c).cloned().unwrap_or(0) < (*last + 1) / 2 => n += 1,
                        _ => {}
                    }
                }
                out.hist("final_goaway_written_before_a_covered_call_started", n);
            }
            if let Some(n) = scn.opts.limit {
                // most calls in flight at once on one connection, against the limit
                let mut cur: HashMap<u32, usize> = HashMap::new();
                let mut peak = 0;
                for e in &r.log {
                    match e {
                        Ev::CallStart(c, _) => {
                            let x = cur.entry(*c).or_insert(0);
                            *x += 1;
                            peak = peak.max(*x);
                        }
                        Ev::CallDone(c, _, _) => {
                            if let Some(x) = cur.get_mut(c) {
                                *x = x.saturating_sub(1);
                            }
                        }
                        _ => {}
                    }
                }
                // (the limit's permit is held until the response head is ready, not until the body ends)
                out.hist("concurrency_limit=>peak_unfinished_calls_on_a_connection", format!("{}=>{}", n.min(9), peak));
            }
            out.hist("accepted_calls", accepted.len());
            out.hist("trace_len", tr.len());
            let refused = scn.calls.iter().filter(|s| !accepted.contains(&s.k)).count();
            out.hist("calls_not_accepted", refused);
            if let Some(f) = pos(&r.log, &Ev::MarkSignalFired) {
                let late = r.log[f..].iter().filter(|e| matches!(e, Ev::Accept(_))).count();
                out.hist("accepted_after_the_signal_fired", late);
                if scn.script.iter().any(|a| matches!(a, Act::Flood(..))) {
                    let before = r.log[..f].iter().filter(|e| matches!(e, Ev::Accept(c) if *c >= FLOOD_BASE)).count();
                    out.hist("flood:handed_out_before_firing=>after", format!("{:02}=>{:02}", before, late));
                }
            }
            let silent = r.log.iter().any(|e| matches!(e, Ev::Accept(c) if !r.log.iter().any(|x| matches!(x, Ev::CallStart(d, _) if d == c)) && *c < FLOOD_BASE));
            if silent {
                out.hist(
                    "connection_without_calls:http1=>stalled",
                    format!("{}=>{}", scn.opts.accept_http1 as u8, (!r.serve_returned_in_time) as u8),
                );
            }
            let model = format!(
                "({} {} {} {})",
                if scn.opts.tcp {
                    "obs_shutdown_tcp".to_string()
                } else {
                    format!("obs_shutdown {} {}", coq_bool(scn.max_age_ms.is_some()), coq_bool(scn.opts.accept_http1))
                },
                coq_list(&tr, |e| e.clone()),
                coq_list(&scn.calls, coq_call),
                coq_list(&aborted, |k| k.to_string()),
            );
            let mut obs = vec![Tr::bool(true)];
            for spec in &scn.calls {
                obs.push(outcome_tr(spec, accepted.contains(&spec.k), r.outcomes.get(&spec.k)));
            }
            let verdict = oracle(scn, &r);
            let mut input = input;
            input["log"] = json!(r.log.iter().map(|e| format!("{:?}", e)).collect::<Vec<_>>());
            out.push(Case {
                kind: kind.into(),
                input,
                model,
                impl_obs: Tr::L(obs),
                oracle: verdict,
                nontrivial: inflight_at_signal > 0 || accepted.len() > 1,
            });
        }
    }
}

// ------------------------------------------------------------------ generators
fn conn(c: u32, buf: usize, chunk_srv: usize, chunk_cli: usize) -> ConnSpec {
    ConnSpec { c, buf, chunk_srv, chunk_cli, eager: true }
}
fn cstream(k: u32, c: u32, nreq: usize, status: Option<(i32, &str)>) -> CallSpec {
    CallSpec {
        k,
        c,
        kind: Kind::ClientStream,
        msgs: if status.is_none() { vec![vec![50 + k as u8, nreq as u8]] } else { vec![] },
        status: status.map(|(c, m)| (c, m.to_string())),
        reqs: (0..nreq).map(|i| vec![k as u8, i as u8, 9, 9]).collect(),
    }
}
fn bidi(k: u32, c: u32, nreq: usize, n: usize, status: Option<(i32, &str)>) -> CallSpec {
    CallSpec {
        k,
        c,
        kind: Kind::Bidi,
        msgs: (0..n).map(|i| vec![k as u8, i as u8, 8]).collect(),
        status: status.map(|(c, m)| (c, m.to_string())),
        reqs: (0..nreq).map(|i| vec![k as u8, i as u8, 9]).collect(),
    }
}
fn unary(k: u32, c: u32, status: Option<(i32, &str)>) -> CallSpec {
    CallSpec {
        k,
        c,
        kind: Kind::Unary,
        msgs: if status.is_none() { vec![vec![100 + k as u8, 1, 2]] } else { vec![] },
        status: status.map(|(c, m)| (c, m.to_string())),
        reqs: vec![],
    }
}
fn streamc(k: u32, c: u32, n: usize, status: Option<(i32, &str)>) -> CallSpec {
    CallSpec {
        k,
        c,
        kind: Kind::Stream,
        msgs: (0..n).map(|i| vec![k as u8, i as u8, 7]).collect(),
        status: status.map(|(c, m)| (c, m.to_string())),
        reqs: vec![],
    }
}
/// the steps of one call in script order: start, then one gate per handler phase and one per
/// client phase, alternating (client first)
fn call_steps(spec: &CallSpec) -> Vec<Act> {
    let mut v = vec![Act::Call(spec.k)];
    let (mut s, mut c) = (spec.phases(), spec.client_phases());
    while s > 0 || c > 0 {
        if c > 0 {
            v.push(Act::CGate(spec.k));
            c -= 1;
        }
        if s > 0 {
            v.push(Act::Gate(spec.k));
            s -= 1;
        }
    }
    v
}
/// the same with the server and client gates merged in a random order
fn call_steps_rand(r: &mut Rng, spec: &CallSpec) -> Vec<Act> {
    let mut v = vec![Act::Call(spec.k)];
    let (mut s, mut c) = (spec.phases(), spec.client_phases());
    while s > 0 || c > 0 {
        if c > 0 && (s == 0 || r.chance(1, 2)) {
            v.push(Act::CGate(spec.k));
            c -= 1;
        } else {
            v.push(Act::Gate(spec.k));
            s -= 1;
        }
    }
    v
}
/// `race`: 0 = the signal is alone between two quiescent points, 1 = fired together with the
/// previous step, 2 = together with the next step, 3 = both
fn with_signal(conns: &[ConnSpec], calls: &[CallSpec], steps: &[Act], at: usize, race: u8, sig: Act) -> Scenario {
    let mut script = vec![];
    for c in conns {
        script.push(Act::Offer(c.c));
    }
    script.push(Act::Settle);
    for (i, s) in steps.iter().enumerate() {
        if i == at {
            if race & 1 == 0 {
                script.push(Act::Settle);
            }
            script.push(sig.clone());
            if race & 2 == 0 {
                script.push(Act::Settle);
            }
        } else if i > 0 {
            script.push(Act::Settle);
        }
        script.push(s.clone());
    }
    if at >= steps.len() {
        if race & 1 == 0 {
            script.push(Act::Settle);
        }
        script.push(sig);
    }
    script.push(Act::Settle);
    Scenario { conns: conns.to_vec(), calls: calls.to_vec(), script, max_age_ms: None, opts: Opts::default() }
}
/// a random interleaving of the per-call step sequences (order inside a call kept)
fn interleave(r: &mut Rng, calls: &[CallSpec]) -> Vec<Act> {
    let mut seqs: Vec<std::collections::VecDeque<Act>> = calls.iter().map(|c| call_steps_rand(r, c).into()).collect();
    let mut out = vec![];
    while seqs.iter().any(|s| !s.is_empty()) {
        let live: Vec<usize> = (0..seqs.len()).filter(|i| !seqs[*i].is_empty()).collect();
        let i = *r.pick(&live);
        out.push(seqs[i].pop_front().unwrap());
    }
    out
}
fn gen_conn(r: &mut Rng, c: u32, big: bool) -> ConnSpec {
    let buf = *r.pick(&[64usize, 256, 1024, 65536, 1 << 20]);
    let ch = |r: &mut Rng| *r.pick(&[0usize, 0, 1, 3, 17, 256, 4096]);
    let (mut cs, mut cc) = (ch(r), ch(r));
    let mut buf = buf;
    if big {
        // keep multi-kilobyte payloads affordable
        if cs != 0 && cs < 256 {
            cs = 256
        }
        if cc != 0 && cc < 256 {
            cc = 256
        }
        if buf < 1024 {
            buf = 1024
        }
    }
    ConnSpec { c, buf, chunk_srv: cs, chunk_cli: cc, eager: r.chance(5, 6) }
}
fn gen_msg(r: &mut Rng, big: bool) -> Vec<u8> {
    match r.below(12) {
        0 => vec![],
        1 if big => vec![r.next() as u8; *r.pick(&[16384usize, 65535, 70000])],
        _ => {
            let n = r.range(1, 12) as usize;
            r.bytes(n)
        }
    }
}
const STATUS_TEXT: &[&str] = &["", "boom", "not here", "a%b c", "é"];
fn gen_status(r: &mut Rng) -> Option<(i32, String)> {
    if r.chance(2, 3) {
        None
    } else {
        Some((r.range(1, 16) as i32, r.pick(STATUS_TEXT).to_string()))
    }
}
fn gen_random(r: &mut Rng, thorough: bool) -> (String, Scenario) {
    let big = r.chance(1, 12);
    let nconn = r.range(1, if thorough { 3 } else { 2 }) as u32;
    let ncall = r.range(1, if thorough { 4 } else { 3 }) as u32;
    let conns: Vec<ConnSpec> = (0..nconn).map(|c| gen_conn(r, c, big)).collect();
    let calls: Vec<CallSpec> = (0..ncall)
        .map(|k| {
            let c = r.below(nconn as u64) as u32;
            let status = gen_status(r);
            let one = |r: &mut Rng, status: &Option<(i32, String)>| if status.is_none() { vec![gen_msg(r, big)] } else { vec![] };
            let n = r.range(0, if thorough { 4 } else { 3 }) as usize;
            let nreq = r.range(0, 3) as usize;
            match r.below(10) {
                0..=2 => CallSpec { k, c, kind: Kind::Unary, msgs: one(r, &status), status, reqs: vec![] },
                3..=5 => CallSpec { k, c, kind: Kind::Stream, msgs: (0..n).map(|_| gen_msg(r, big)).collect(), status, reqs: vec![] },
                6 | 7 => CallSpec {
                    k,
                    c,
                    kind: Kind::ClientStream,
                    msgs: one(r, &status),
                    status,
                    reqs: (0..nreq).map(|_| gen_msg(r, big)).collect(),
                },
                _ => CallSpec {
                    k,
                    c,
                    kind: Kind::Bidi,
                    msgs: (0..n).map(|_| gen_msg(r, big)).collect(),
                    status,
                    reqs: (0..nreq).map(|_| gen_msg(r, big)).collect(),
                },
            }
        })
        .collect();
    let steps = interleave(r, &calls);
    let at = r.below(steps.len() as u64 + 1) as usize;
    let race = r.below(4) as u8;
    let flavour = r.below(24);
    let sig = if flavour == 0 { Act::EndIncoming } else { Act::Signal };
    let mut s = with_signal(&conns, &calls, &steps, at, race, sig);
    let mut kind = "rand.signal";
    if flavour == 0 {
        kind = "rand.incoming_end";
    }
    // extras: a connection offered after the signal, a call started after the signal on an old
    // connection, the listener ending as well, a client walking away
    let sig_pos = s.script.iter().position(|a| matches!(a, Act::Signal | Act::EndIncoming)).unwrap();
    if flavour == 1 || flavour == 2 {
        // late connection with a call on it
        let c = nconn;
        let k = ncall;
        s.conns.push(gen_conn(r, c, false));
        s.calls.push(unary(k, c, None));
        let settle_first = r.chance(1, 2);
        let mut ins = vec![];
        if settle_first {
            ins.push(Act::Settle);
        }
        ins.push(Act::Offer(c));
        ins.push(Act::Call(k));
        ins.push(Act::Gate(k));
        let at = sig_pos + 1;
        for (i, a) in ins.into_iter().enumerate() {
            s.script.insert(at + i, a);
        }
        kind = "rand.late_connection";
    } else if flavour == 3 || flavour == 4 {
        // late call on an existing connection
        let k = ncall;
        let c = r.below(nconn as u64) as u32;
        s.calls.push(if r.chance(1, 2) { unary(k, c, None) } else { streamc(k, c, 1, None) });
        let mut at = sig_pos + 1;
        if r.chance(1, 2) {
            s.script.insert(at, Act::Settle);
            at += 1;
        }
        s.script.insert(at, Act::Call(k));
        kind = "rand.late_call";
    } else if flavour == 5 {
        let at = r.range(1, s.script.len() as u64) as usize;
        s.script.insert(at, Act::EndIncoming);
        kind = "rand.signal_and_incoming_end";
    } else if flavour == 6 || flavour == 7 {
        let c = r.below(nconn as u64) as u32;
        let at = r.range(nconn as u64 + 1, s.script.len() as u64) as usize;
        s.script.insert(at, Act::DropClient(c));
        kind = "rand.client_drop";
    } else if flavour == 8 || flavour == 14 || flavour == 15 {
        s.max_age_ms = Some(r.range(1, 12));
        kind = "rand.max_connection_age";
    } else if flavour == 16 || flavour == 17 {
        // the signal is ready while the listener has connections ready too, several times over
        let extra = r.range(1, 5) as u32;
        let mut ins = vec![];
        for i in 0..extra {
            let c = nconn + i;
            let k = ncall + i;
            s.conns.push(gen_conn(r, c, false));
            s.calls.push(unary(k, c, None));
            ins.push(Act::Offer(c));
        }
        for i in 0..extra {
            ins.push(Act::Call(ncall + i));
            ins.push(Act::Gate(ncall + i));
        }
        // offered in the same tick as the signal: before it, after it, or around it
        let at = match r.below(3) {
            0 => sig_pos,
            _ => sig_pos + 1,
        };
        for (i, a) in ins.into_iter().enumerate() {
            s.script.insert(at + i, a);
        }
        kind = "rand.signal_vs_accept";
    } else if flavour == 9 {
        // accept errors, before and after the signal
        for _ in 0..r.range(1, 3) {
            let at = r.range(0, s.script.len() as u64) as usize;
            let t = r.chance(1, 2);
            s.script.insert(at, Act::IncomingError(t));
        }
        kind = "rand.accept_errors";
    } else if flavour >= 10 && flavour <= 13 && nconn > 1 {
        // connections that arrive while the server is busy: offered right before their first call
        for c in 1..nconn {
            if let Some(first) = s.script.iter().position(|a| matches!(a, Act::Call(k) if s.calls[*k as usize].c == c)) {
                let off = s.script.iter().position(|a| *a == Act::Offer(c)).unwrap();
                s.script.remove(off);
                s.script.insert(first - 1, Act::Offer(c));
            }
        }
        kind = "rand.connection_arrives_with_its_call";
    } else if flavour == 18 || flavour == 19 || flavour == 22 {
        // the listener stays ready while the signal fires: replace the signal by a flood
        if let Some(p) = s.script.iter().position(|a| *a == Act::Signal) {
            s.script[p] = Act::Flood(r.range(1, 6) as u32, *r.pick(&[4u32, 16, 40]));
            kind = "rand.flood";
        }
    } else if flavour == 20 || flavour == 23 {
        // a connection whose peer stays silent (no preface) until after the signal, or for ever
        let c = nconn;
        let mut sp = gen_conn(r, c, false);
        sp.eager = false;
        s.conns.push(sp);
        s.script.insert(0, Act::Offer(c));
        if r.chance(1, 2) {
            let k = ncall;
            s.calls.push(unary(k, c, None));
            let sig_pos = s.script.iter().position(|a| matches!(a, Act::Signal | Act::EndIncoming)).unwrap();
            let mut at = sig_pos + 1;
            if r.chance(2, 3) {
                s.script.insert(at, Act::Settle);
                at += 1;
            }
            s.script.insert(at, Act::Call(k));
            s.script.insert(at + 1, Act::Gate(k));
        }
        s.opts.accept_http1 = r.chance(1, 2);
        kind = "rand.silent_peer";
    }
    // builder options that must not change anything about the shutdown
    if r.chance(1, 5) {
        s.opts.accept_http1 = true;
    }
    if r.chance(1, 5) {
        s.opts.limit = Some(match r.below(3) {
            0 => 1,
            1 => 2,
            _ => s.calls.len() + 1,
        });
    }
    if r.chance(1, 6) {
        s.opts.timeout_ms = Some(3_600_000);
    }
    (kind.to_string(), s)
}

/// a tcp scenario: every connection is opened and proven accepted by a completed ping call before
/// anything else happens; `late` adds a connection (with a call) offered after the signal was observed
fn tcp_scenario(nconn: u32, calls: Vec<CallSpec>, steps: Vec<Act>, at: usize, late: bool, opts: Opts) -> Scenario {
    let mut calls = calls;
    let mut script = vec![];
    let conns: Vec<ConnSpec> = (0..nconn + late as u32).map(|c| conn(c, 0, 0, 0)).collect();
    for c in 0..nconn {
        let k = 120 + c;
        calls.push(unary(k, c, None));
        script.extend([Act::Offer(c), Act::Call(k), Act::Gate(k), Act::Await(k)]);
    }
    // the late connection is offered right after the signal was observed - while the calls in
    // flight keep the server (and its listening socket) alive
    let signal = |script: &mut Vec<Act>, calls: &mut Vec<CallSpec>| {
        script.push(Act::Signal);
        if late {
            let (c, k) = (nconn, 150);
            calls.push(unary(k, c, None));
            script.extend([Act::Offer(c), Act::Call(k), Act::Gate(k)]);
        }
    };
    for (i, a) in steps.iter().enumerate() {
        if i == at {
            signal(&mut script, &mut calls);
        }
        script.push(a.clone());
    }
    if at >= steps.len() {
        signal(&mut script, &mut calls);
    }
    Scenario { conns, calls, script, max_age_ms: None, opts: Opts { tcp: true, ..opts } }
}
fn tcp_cases(out: &mut Out, r: &mut Rng, thorough: bool) {
    // fixed: the signal before the headers, mid-stream, at completion, with and without a late connection
    let sys = vec![streamc(0, 0, 2, None), unary(1, 0, Some((9, "boom")))];
    let steps: Vec<Act> = sys.iter().flat_map(call_steps).collect();
    for at in [0usize, 1, 2, 3, steps.len()] {
        push_case(out, "tcp.serve_with_shutdown", &tcp_scenario(1, sys.clone(), steps.clone(), at, at % 2 == 0, Opts::default()));
    }
    let sys = vec![bidi(0, 0, 2, 2, None), cstream(1, 1, 1, None)];
    let steps: Vec<Act> = sys.iter().flat_map(call_steps).collect();
    for (i, at) in [2usize, 5, steps.len()].into_iter().enumerate() {
        let opts = Opts { accept_http1: i == 0, limit: if i == 1 { Some(8) } else { None }, timeout_ms: if i == 2 { Some(3_600_000) } else { None }, tcp: true };
        push_case(out, "tcp.serve_with_shutdown", &tcp_scenario(2, sys.clone(), steps.clone(), at, true, opts));
    }
    for _ in 0..if thorough { 150 } else { 12 } {
        let nconn = r.range(1, 2) as u32;
        let ncall = r.range(1, 3) as u32;
        let calls: Vec<CallSpec> = (0..ncall)
            .map(|k| {
                let c = r.below(nconn as u64) as u32;
                match r.below(4) {
                    0 => unary(k, c, gen_status(r).as_ref().map(|(c, m)| (*c, m.as_str()))),
                    1 => streamc(k, c, r.range(0, 3) as usize, None),
                    2 => cstream(k, c, r.range(0, 2) as usize, None),
                    _ => bidi(k, c, r.range(0, 2) as usize, r.range(0, 2) as usize, None),
                }
            })
            .collect();
        let steps = interleave(r, &calls);
        let at = r.below(steps.len() as u64 + 1) as usize;
        let opts = Opts { accept_http1: r.chance(1, 4), limit: if r.chance(1, 4) { Some(16) } else { None }, timeout_ms: None, tcp: true };
        push_case(out, "tcp.rand", &tcp_scenario(nconn, calls, steps, at, r.chance(1, 2), opts));
    }
}

fn corpus(out: &mut Out) {
    let c0 = [conn(0, 65536, 0, 0)];
    // F-C13a (fixed): the signal fires, THEN connections are offered, all before the accept loop runs
    // again: none of them may be accepted (an unbiased select! took the listener half of the time)
    for n in [1u32, 4, 8] {
        for with_call_in_flight in [false, true] {
            let mut conns = vec![];
            let mut calls = vec![];
            let mut script = vec![];
            if with_call_in_flight {
                conns.push(conn(100, 65536, 0, 0));
                calls.push(streamc(100, 100, 1, None));
                script.extend([Act::Offer(100), Act::Settle, Act::Call(100), Act::Settle, Act::Gate(100)]);
            }
            script.push(Act::Settle);
            script.push(Act::Signal);
            for i in 0..n {
                conns.push(conn(i, 65536, 0, 0));
                calls.push(unary(i, i, None));
                script.push(Act::Offer(i));
            }
            for i in 0..n {
                script.push(Act::Call(i));
                script.push(Act::Gate(i));
            }
            script.push(Act::Settle);
            for _ in 0..3 {
                push_case(out, "corpus.F-C13a", &Scenario { conns: conns.clone(), calls: calls.clone(), script: script.clone(), max_age_ms: None, opts: Opts::default() });
            }
        }
    }
    // the listener stays permanently ready while the signal fires (it fires it itself after `pre`
    // connections): a select loop that prefers the listener never gets to the signal
    for pre in [1u32, 2, 5] {
        for cap in [8u32, 40] {
            let calls = vec![streamc(0, 0, 2, None)];
            let script = vec![
                Act::Offer(0), Act::Settle, Act::Call(0), Act::Settle, Act::Gate(0), Act::Settle, Act::Gate(0), Act::Settle,
                Act::Flood(pre, cap), Act::Settle,
            ];
            push_case(out, "corpus.flood", &Scenario { conns: c0.to_vec(), calls, script, max_age_ms: None, opts: Opts::default() });
        }
    }
    push_case(
        out,
        "corpus.flood",
        &Scenario { conns: vec![], calls: vec![], script: vec![Act::Settle, Act::Flood(3, 40), Act::Settle], max_age_ms: None, opts: Opts::default() },
    );
    // builder options that sit in the per-connection stack: the shutdown must be unaffected
    {
        let sys = [streamc(0, 0, 2, None), unary(1, 0, Some((9, "boom"))), cstream(2, 0, 1, None)];
        let steps: Vec<Act> = sys.iter().flat_map(call_steps).collect();
        for at in [0usize, 2, 4, steps.len()] {
            for o in 0..4 {
                let mut sc = with_signal(&c0, &sys, &steps, at, 0, Act::Signal);
                sc.opts = Opts {
                    accept_http1: o == 0 || o == 3,
                    limit: if o == 1 || o == 3 { Some(3) } else { None },
                    timeout_ms: if o == 2 || o == 3 { Some(3_600_000) } else { None },
                    tcp: false,
                };
                push_case(out, "corpus.builder_options", &sc);
            }
        }
    }
    // calls queued behind concurrency_limit_per_connection when the signal fires: hyper has their
    // streams, the application has not seen them yet; they run to completion all the same
    {
        let sys = [streamc(0, 0, 1, None), unary(1, 0, None), streamc(2, 0, 1, Some((7, "boom")))];
        let mut steps: Vec<Act> = sys.iter().map(|c| Act::Call(c.k)).collect();
        for c in &sys {
            steps.extend(call_steps(c).into_iter().skip(1));
        }
        for limit in [1usize, 2] {
            for at in 2..=steps.len() {
                for race in [0u8, 3] {
                    let mut sc = with_signal(&c0, &sys, &steps, at, race, Act::Signal);
                    sc.opts.limit = Some(limit);
                    push_case(out, "corpus.limit_queue", &sc);
                }
            }
        }
    }
    // a peer that never sends its preface: with http2 only the shutdown waits for it (until it goes
    // away), with accept_http1 hyper-util's version detection is cancelled and the connection closes
    for http1 in [false, true] {
        for late_call in [false, true] {
            let mut silent = conn(1, 65536, 0, 0);
            silent.eager = false;
            let mut calls = vec![unary(0, 0, None)];
            let mut script = vec![Act::Offer(0), Act::Offer(1), Act::Settle, Act::Call(0), Act::Settle, Act::Signal, Act::Settle];
            if late_call {
                calls.push(unary(1, 1, None));
                script.extend([Act::Call(1), Act::Gate(1), Act::Settle]);
            }
            script.extend([Act::Gate(0), Act::Settle]);
            push_case(
                out,
                "corpus.silent_peer",
                &Scenario { conns: vec![conn(0, 65536, 0, 0), silent], calls, script, max_age_ms: None, opts: Opts { accept_http1: http1, ..Opts::default() } },
            );
        }
    }
    // the three placements named by the property, one call
    let st = [streamc(0, 0, 2, None)];
    let steps = call_steps(&st[0]);
    for at in 0..=steps.len() {
        for race in 0..4 {
            push_case(out, "corpus.stream_signal_everywhere", &with_signal(&c0, &st, &steps, at, race, Act::Signal));
        }
    }
    let un = [unary(0, 0, None)];
    let steps = call_steps(&un[0]);
    for at in 0..=steps.len() {
        for race in 0..4 {
            push_case(out, "corpus.unary_signal_everywhere", &with_signal(&c0, &un, &steps, at, race, Act::Signal));
        }
    }
    // the client is still sending when the signal fires: client-streaming and bidirectional calls
    let cs = [cstream(0, 0, 2, None)];
    let steps = call_steps(&cs[0]);
    for at in 0..=steps.len() {
        for race in 0..4 {
            push_case(out, "corpus.client_stream_signal_everywhere", &with_signal(&c0, &cs, &steps, at, race, Act::Signal));
        }
    }
    let bd = [bidi(0, 0, 2, 2, Some((10, "boom")))];
    let steps = call_steps(&bd[0]);
    for at in 0..=steps.len() {
        for race in 0..4 {
            push_case(out, "corpus.bidi_signal_everywhere", &with_signal(&c0, &bd, &steps, at, race, Act::Signal));
        }
    }
    // max_connection_age tells the connection long before the signal: calls in flight finish, the
    // connection closes, the later signal finds it gone (or still draining)
    let ag = [streamc(0, 0, 3, None), unary(1, 0, None)];
    let steps = [call_steps(&ag[0]), call_steps(&ag[1])].concat();
    for age in [1u64, 2, 3, 5, 8] {
        for at in [2usize, 4, steps.len()] {
            let mut sc = with_signal(&c0, &ag, &steps, at, 0, Act::Signal);
            sc.max_age_ms = Some(age);
            push_case(out, "corpus.max_connection_age", &sc);
        }
    }
    // the signal and several connections become ready in the same poll of the accept loop
    for n in [1u32, 2, 4, 8] {
        for rep in 0..6 {
            let mut conns = vec![conn(0, 65536, 0, 0)];
            let mut calls = vec![streamc(0, 0, 1, None)];
            let mut script = vec![Act::Offer(0), Act::Settle, Act::Call(0), Act::Settle, Act::Gate(0), Act::Settle];
            if rep % 2 == 0 {
                script.push(Act::Signal);
            }
            for i in 1..=n {
                conns.push(conn(i, 65536, 0, 0));
                calls.push(unary(i, i, None));
                script.push(Act::Offer(i));
            }
            if rep % 2 == 1 {
                script.push(Act::Signal);
            }
            for i in 1..=n {
                script.push(Act::Call(i));
                script.push(Act::Gate(i));
            }
            script.push(Act::Settle);
            push_case(out, "corpus.signal_vs_accept", &Scenario { conns, calls, script, max_age_ms: None, opts: Opts::default() });
        }
    }
    // error statuses survive the shutdown
    let er = [streamc(0, 0, 1, Some((5, "not here"))), unary(1, 0, Some((9, "boom")))];
    let steps = [call_steps(&er[0]), call_steps(&er[1])].concat();
    for at in 0..=steps.len() {
        push_case(out, "corpus.error_status", &with_signal(&c0, &er, &steps, at, 0, Act::Signal));
    }
    // signal with nothing connected at all; with an idle connection
    push_case(out, "corpus.idle", &with_signal(&[], &[], &[], 0, 0, Act::Signal));
    push_case(out, "corpus.idle", &with_signal(&c0, &[], &[], 0, 0, Act::Signal));
    push_case(out, "corpus.idle", &with_signal(&c0, &[], &[], 0, 3, Act::Signal));
    push_case(out, "corpus.idle", &with_signal(&c0, &[], &[], 0, 0, Act::EndIncoming));
    // accept errors of both kinds around the signal
    push_case(
        out,
        "corpus.accept_errors",
        &Scenario {
            conns: c0.to_vec(),
            calls: vec![unary(0, 0, None)],
            script: vec![
                Act::IncomingError(true), Act::IncomingError(false), Act::Settle, Act::Offer(0), Act::IncomingError(false),
                Act::Settle, Act::Call(0), Act::Settle, Act::Signal, Act::IncomingError(true), Act::IncomingError(false),
                Act::Settle, Act::Gate(0), Act::Settle,
            ],
            max_age_ms: None,
            opts: Opts::default(),
        },
    );
    // a connection offered after the signal; a call started after the signal on a notified connection
    let calls = [streamc(0, 0, 1, None), unary(1, 1, None), unary(2, 0, None)];
    let conns = [conn(0, 65536, 0, 0), conn(1, 65536, 0, 0)];
    push_case(
        out,
        "corpus.late_connection_and_call",
        &Scenario {
            conns: conns.to_vec(),
            calls: calls.to_vec(),
            script: vec![
                Act::Offer(0), Act::Settle, Act::Call(0), Act::Settle, Act::Gate(0), Act::Settle, Act::Signal, Act::Settle,
                Act::Offer(1), Act::Call(1), Act::Gate(1), Act::Settle, Act::Call(2), Act::Gate(2), Act::Settle,
                Act::Gate(0), Act::Settle, Act::Gate(0), Act::Settle,
            ],
            max_age_ms: None,
            opts: Opts::default(),
        },
    );
}

/// every placement of the signal (and every race flavour) for fixed small systems
fn enumerate(out: &mut Out, r: &mut Rng, thorough: bool) {
    let systems: Vec<(Vec<ConnSpec>, Vec<CallSpec>)> = vec![
        (vec![conn(0, 64, 3, 1)], vec![streamc(0, 0, 2, None)]),
        (vec![conn(0, 65536, 0, 0)], vec![unary(0, 0, None), streamc(1, 0, 1, Some((7, "boom")))]),
        (vec![conn(0, 1024, 17, 0), conn(1, 64, 0, 3)], vec![streamc(0, 0, 1, None), streamc(1, 1, 2, None)]),
        (
            vec![conn(0, 65536, 0, 0), conn(1, 65536, 1, 1)],
            vec![unary(0, 0, None), streamc(1, 1, 1, None), unary(2, 1, Some((3, "a%b c")))],
        ),
        (vec![conn(0, 256, 0, 17)], vec![cstream(0, 0, 2, None), bidi(1, 0, 1, 2, None)]),
        (vec![conn(0, 65536, 0, 0), conn(1, 1024, 3, 0)], vec![bidi(0, 0, 2, 1, Some((7, "boom"))), cstream(1, 1, 1, Some((5, "not here")))]),
    ];
    let orders = if thorough { 6 } else { 2 };
    for (conns, calls) in &systems {
        for o in 0..orders {
            let steps = if o == 0 { calls.iter().flat_map(call_steps).collect::<Vec<_>>() } else { interleave(r, calls) };
            for at in 0..=steps.len() {
                for race in 0..4 {
                    push_case(out, "enum.signal_placement", &with_signal(conns, calls, &steps, at, race, Act::Signal));
                }
                if thorough || o == 0 {
                    push_case(out, "enum.incoming_end_placement", &with_signal(conns, calls, &steps, at, 0, Act::EndIncoming));
                }
            }
        }
    }
}

fn main() {
    let a = args();
    let mut out = Out::new(&a.out);
    let mut r = Rng::new(a.seed);
    let rule = "the recorded server event trace is a run of the shutdown transition system ending in Done (hidden steps inserted by the checker), and every caller's outcome equals the one computed from the handler script and the trace";

    if let Some(f) = &a.replay {
        let v: Value = serde_json::from_str(&std::fs::read_to_string(f).unwrap()).unwrap();
        let c = if v.get("first_disagreement").is_some() { &v["first_disagreement"] } else { &v };
        let scn = scn_from_json(&c["input"]);
        push_case(&mut out, c["kind"].as_str().unwrap_or("replay"), &scn);
        out.finish(IMPORTS, "replay of one stored case", json!({}));
        return;
    }

    corpus(&mut out);
    tcp_cases(&mut out, &mut r, a.thorough);
    enumerate(&mut out, &mut r, a.thorough);
    let n = if a.thorough { 30000 } else { 2500 } * a.scale;
    for _ in 0..n {
        let (kind, scn) = gen_random(&mut r, a.thorough);
        push_case(&mut out, &kind, &scn);
    }
    out.finish(IMPORTS, rule, json!({}));
}
